//! C10: run the drivers, every rolling entry point and the vrank / partition / quantile kernels on an
//! instrumented input view (logs every accessor call) and into an instrumented output container
//! (logs every write); compare the access trace with the model's and check it directly.
use tevec::prelude::*;
use vh::trace::*;
use vh::{Cell, Emitter, Rng, NULL_PATTERNS, null_mask, guarded, coq_nat, coq_f64, coq_list, coq_opt, coq_bool};

fn enc_acc(a: &Acc) -> Option<Cell> {
    Some(Cell::Int(match a {
        Acc::Uget(v, i) => 1_000_000 * (1 + *v as i128) + *i as i128,
        Acc::Uslice(v, a, b) => 10_000_000 * (1 + *v as i128) + 1000 * *a as i128 + *b as i128,
        Acc::Slice(v, a, b) => 50_000_000 + 10_000_000 * (1 + *v as i128) + 1000 * *a as i128 + *b as i128,
        Acc::Uset(i) => -(*i as i128) - 1,
        Acc::Titer(_) => return None,
    }))
}

/// cells: len, len2, SEP, trace..., SEP, slot states (1 written, 0 never written) or a panic cell
fn assemble<T>(len: usize, len2: usize, res: Result<Option<TraceOut<T>>, u8>) -> Vec<Cell> {
    let mut c = vec![Cell::Int(len as i128), Cell::Int(len2 as i128), Cell::Sep];
    let log = take_log();
    match res {
        Err(k) => {
            c.push(Cell::Panic(k));
        }
        Ok(out) => {
            c.extend(log.iter().filter_map(enc_acc));
            c.push(Cell::Sep);
            if let Some(o) = out {
                c.push(Cell::Int(o.slots.len() as i128));
                for s in o.slots.iter() {
                    c.push(Cell::Int(if s.is_some() { 1 } else { 0 }))
                }
            }
        }
    }
    c
}

/// What a trusted-length collector does with an iterator (`collect_trusted_to_vec`: allocate the announced number of slots,
/// then `ptr::write` every item, no bound check) - on a bound-checked, write-recording buffer.  An iterator that yields more
/// than it announces is a write past the allocation, one that yields less exposes unwritten slots (seed C10-5).
fn collect_checked<T: Clone, I: Iterator<Item = T>>(it: I) -> TraceOut<T> {
    let n = it.size_hint().1.unwrap_or(it.size_hint().0);
    let mut u = TraceOut::<T>::uninit(n);
    for (i, v) in it.enumerate() {
        unsafe { u.uset(i, v) }
    }
    unsafe { u.assume_init() }
}
/// cells of a collected kernel iterator: announced length (= buffer length), input length (view 1), log, slot flags
fn assemble_collected<T>(len_in: usize, res: Result<TraceOut<T>, u8>) -> Vec<Cell> {
    let log = take_log();
    match res {
        Err(k) => vec![Cell::Int(0), Cell::Int(len_in as i128), Cell::Sep, Cell::Panic(k)],
        Ok(o) => {
            let mut c = vec![Cell::Int(o.slots.len() as i128), Cell::Int(len_in as i128), Cell::Sep];
            c.extend(log.iter().filter_map(enc_acc));
            c.push(Cell::Sep);
            c.push(Cell::Int(o.slots.len() as i128));
            for s in o.slots.iter() { c.push(Cell::Int(if s.is_some() { 1 } else { 0 })) }
            c
        }
    }
}

fn series(rng: &mut Rng, len: usize) -> Vec<f64> {
    let pat = *rng.pick(&NULL_PATTERNS);
    let m = null_mask(rng, pat, len);
    let style = rng.below(3);
    let mut cur = 0i64;
    (0..len).map(|i| if m[i] { vh::nan_at(i) } else {
        match style { 0 => rng.range(-3, 3) as f64, 1 => { cur += rng.range(0, 2); cur as f64 } _ => { cur -= rng.range(0, 2); cur as f64 } } }).collect()
}

/// run `$call` (an expression producing TraceOut) with a fresh log; `_to` variants get a TraceUninit
macro_rules! ret {
    ($len:expr, $len2:expr, $e:expr) => {{
        let _ = take_log();
        let r = guarded(std::panic::AssertUnwindSafe(|| -> Option<TraceOut<f64>> { Some($e) }));
        assemble($len, $len2, r)
    }};
}
macro_rules! to {
    ($len:expr, $len2:expr, |$b:ident| $e:expr) => {{
        let _ = take_log();
        let r = guarded(std::panic::AssertUnwindSafe(|| -> Option<TraceOut<f64>> {
            let mut u = TraceOut::<f64>::uninit($len);
            {
                let $b = Some(TraceOut::<f64>::uninit_ref_mut(&mut u));
                let _: Option<TraceOut<f64>> = $e;
            }
            Some(unsafe { u.assume_init() })
        }));
        assemble($len, $len2, r)
    }};
}


// ====================================================================================================
// part=ktrace: the kernel traces, cell by cell (model side: Run/RunC10.v run_ksteps / run_ksteps2 /
// run_vrank_segs over Model/KernelSteps.v).
//
// Layout (both sides):  len len2 SEP  step*  status
//   step   = [number of driver reads] driver reads (in order)  callback reads (sorted multiset)  writes  [panic]  SEP
//   status = panic | number of outputs [slot states 1/0 — implementation, caller-buffer path only]
// A step is one callback invocation.  In the caller-buffer path (two-phase index body) the `uset` of the
// slot ends the step and the first 1 (2 for two series) reads are the driver's own `uget(end)`; in the
// returned path (iterator body) the driver reads through `titer`, and the output container below logs a
// marker each time it has pulled one item out of the lazy iterator, which ends the step.
// ====================================================================================================
const ITEM_MARK: usize = 1 << 20;

/// Output container of the returned path: `collect_from_iter` logs `Titer(ITEM_MARK + i)` after pulling item i.
#[derive(Clone, Debug)]
pub struct StepOut<T>(pub Vec<T>);
pub struct StepUninit<T>(pub Vec<Option<T>>);
impl<T> GetLen for StepOut<T> { fn len(&self) -> usize { self.0.len() } }
impl<T> GetLen for StepUninit<T> { fn len(&self) -> usize { self.0.len() } }
impl<T: Clone> TIter<T> for StepOut<T> {
    fn titer(&self) -> impl TIterator<Item = T> + '_ { self.0.iter().cloned() }
}
impl<T: Clone> Vec1View<T> for StepOut<T> {
    type SliceOutput<'a> = Vec<T> where Self: 'a;
    fn get_backend_name(&self) -> &'static str { "stepout" }
    unsafe fn uget(&self, index: usize) -> T { self.0[index].clone() }
}
impl<T: Clone> Vec1<T> for StepOut<T> {
    type Uninit = StepUninit<T>;
    type UninitRefMut<'a> = &'a mut StepUninit<T> where T: 'a;
    fn collect_from_iter<I: Iterator<Item = T>>(iter: I) -> Self {
        let mut v = Vec::new();
        for (i, x) in iter.enumerate() {
            log(Acc::Titer(ITEM_MARK + i));
            v.push(x);
        }
        StepOut(v)
    }
    fn uninit(len: usize) -> Self::Uninit { StepUninit((0..len).map(|_| None).collect()) }
    fn uninit_ref_mut(u: &mut Self::Uninit) -> Self::UninitRefMut<'_> { u }
}
impl<T: Clone> UninitVec<T> for StepUninit<T> {
    type Vec = StepOut<T>;
    unsafe fn assume_init(self) -> Self::Vec { StepOut(self.0.into_iter().map(|x| x.expect("StepOut: slot never written")).collect()) }
    unsafe fn uset(&mut self, idx: usize, v: T) { log(Acc::Uset(idx)); if idx < self.0.len() { self.0[idx] = Some(v) } }
}
impl<T> UninitRefMut<T> for &mut StepUninit<T> {
    unsafe fn uset(&mut self, idx: usize, v: T) { log(Acc::Uset(idx)); if idx < self.0.len() { self.0[idx] = Some(v) } }
}

fn num(a: &Acc) -> i128 {
    match enc_acc(a) { Some(Cell::Int(v)) => v, _ => 0 }
}

/// cut the log of one kernel run into steps and render them; returns (cells, a rescan happened)
/// `ndrv`: driver reads per step (caller-buffer path: 1 or 2; returned path: 0)
fn step_cells(len: usize, len2: usize, ndrv: usize, res: Result<(usize, Option<Vec<bool>>), u8>) -> (Vec<Cell>, bool) {
    let log = take_log();
    let mut c = vec![Cell::Int(len as i128), Cell::Int(len2 as i128), Cell::Sep];
    let mut rescan = false;
    let mut cur: Vec<&Acc> = vec![];
    let mut flush = |cur: &mut Vec<&Acc>, write: Option<usize>, panic: Option<u8>, c: &mut Vec<Cell>| {
        let nd = ndrv.min(cur.len());
        c.push(Cell::Int(nd as i128));
        for a in cur[..nd].iter() { c.push(Cell::Int(num(a))) }
        let mut cb: Vec<i128> = cur[nd..].iter().map(|a| num(a)).collect();
        cb.sort();
        // a rescan: the callback read at least two different indices (more than the element that leaves the window)
        let mut d: Vec<i128> = cb.iter().map(|v| v % 1_000_000).collect(); d.sort(); d.dedup();
        if d.len() > 1 { rescan = true }
        for v in cb { c.push(Cell::Int(v)) }
        if let Some(i) = write { c.push(Cell::Int(-(i as i128) - 1)) }
        if let Some(k) = panic { c.push(Cell::Panic(k)) }
        c.push(Cell::Sep);
        cur.clear();
    };
    for a in log.iter() {
        match a {
            Acc::Uset(i) => flush(&mut cur, Some(*i), None, &mut c),
            Acc::Titer(m) if *m >= ITEM_MARK => flush(&mut cur, None, None, &mut c),
            Acc::Titer(_) => {}
            _ => cur.push(a),
        }
    }
    match res {
        Err(k) => {
            if !cur.is_empty() { flush(&mut cur, None, Some(k), &mut c) }
            c.push(Cell::Panic(k));
        }
        Ok((nout, slots)) => {
            if !cur.is_empty() { flush(&mut cur, None, None, &mut c) }
            c.push(Cell::Int(nout as i128));
            if let Some(sl) = slots { for b in sl { c.push(Cell::Int(if b { 1 } else { 0 })) } }
        }
    }
    (c, rescan)
}

/// run a kernel into a caller buffer (two-phase index body): Ok((len, slot states))
macro_rules! kto {
    (|$b:ident| $e:expr, $len:expr) => {{
        let _ = take_log();
        guarded(std::panic::AssertUnwindSafe(|| -> (usize, Option<Vec<bool>>) {
            let mut u = TraceOut::<f64>::uninit($len);
            {
                let $b = Some(TraceOut::<f64>::uninit_ref_mut(&mut u));
                let _: Option<TraceOut<f64>> = $e;
            }
            (u.slots.len(), Some(u.slots.iter().map(|s| s.is_some()).collect()))
        }))
    }};
}
/// run a kernel that returns its output (iterator body, collected into StepOut)
macro_rules! kret {
    ($e:expr) => {{
        let _ = take_log();
        guarded(std::panic::AssertUnwindSafe(|| -> (usize, Option<Vec<bool>>) {
            let o: StepOut<f64> = $e;
            (o.0.len(), None)
        }))
    }};
}

fn same_class(a: f64, b: f64) -> bool { (a.is_nan() && b.is_nan()) || a == b }
fn class_rep(xs: &[f64], i: usize) -> usize {
    if i >= xs.len() { return i }
    (0..i).find(|&j| same_class(xs[j], xs[i])).unwrap_or(i)
}

/// vrank: the log cut at its writes; reads as class representatives (sorted multiset), the write as
/// (class representative, raw slot)
fn vrank_cells(xs: &[f64], res: Result<Option<TraceOut<f64>>, u8>) -> Vec<Cell> {
    let log = take_log();
    let len = xs.len();
    let mut c = vec![Cell::Int(len as i128), Cell::Int(len as i128), Cell::Sep];
    let mut cur: Vec<i128> = vec![];
    for a in log.iter() {
        match a {
            Acc::Uset(i) => {
                cur.sort();
                for v in cur.drain(..) { c.push(Cell::Int(v)) }
                c.push(Cell::Int(-(class_rep(xs, *i) as i128) - 1));
                c.push(Cell::Int(-(*i as i128) - 1));
                c.push(Cell::Sep);
            }
            Acc::Uget(v, i) => cur.push(num(&Acc::Uget(*v, if *v == 0 { class_rep(xs, *i) } else { *i }))),
            Acc::Titer(_) => {}
            other => cur.push(num(other)),
        }
    }
    if !cur.is_empty() {
        cur.sort();
        for v in cur.drain(..) { c.push(Cell::Int(v)) }
        c.push(Cell::Sep);
    }
    match res {
        Err(k) => c.push(Cell::Panic(k)),
        Ok(o) => {
            let o = o.unwrap();
            c.push(Cell::Int(o.slots.len() as i128));
            for s in o.slots.iter() { c.push(Cell::Int(if s.is_some() { 1 } else { 0 })) }
        }
    }
    c
}

/// series for part=ktrace: extremes that expire, null newcomers, plateaus, all null
fn kseries(rng: &mut Rng, kind: usize, len: usize) -> Vec<f64> {
    let nan = |i: usize| vh::nan_at(i);
    (0..len).map(|i| match kind {
        0 => i as f64,                                        // increasing: the minimum expires at every step
        1 => (len - i) as f64,                                // decreasing: the maximum expires at every step
        2 => if i % 2 == 0 { (i / 2) as f64 } else { (len + 3 - i) as f64 }, // zigzag: both expire in turn
        3 => 2.0,                                             // plateau: every comparison is a tie
        4 => if i % 3 == 2 { nan(i) } else { (len - i) as f64 }, // null newcomers while the extreme expires
        5 => if i == 0 { -5.0 } else if i == 1 { 9.0 } else if i % 2 == 0 { nan(i) } else { 1.0 }, // extremes first, then nulls
        6 => nan(i),                                          // all null
        7 => if i + 2 >= len { nan(i) } else { (i % 2) as f64 }, // trailing nulls
        _ => if rng.chance(1, 4) { nan(i) } else { rng.range(-2, 2) as f64 },
    }).collect()
}

fn main() {
    let mut em = Emitter::new();
    let mut rng = Rng::new(em.args.seed);
    let maxlen = if em.thorough() { 12 } else { 7 };
    // ---------------- part A: the drivers themselves (callbacks read nothing) ------------------
    for len in 0..=maxlen {
        for w in 0..=len + 3 {
            let xs = series(&mut rng, len);
            let mut lens2: Vec<usize> = if len == 0 { vec![0, 1] } else { vec![len, len - 1, len + 1] };
            // X12: window 0 with an EMPTY second series (built without the generator: the stream of the other cases is unchanged)
            if w == 0 && len >= 2 { lens2.push(0); }
            let wrel = if w == 0 { "zero" } else if w > len { "gt" } else if w == len { "eq" } else { "lt" };
            let tg = |k: &str, l2: usize| format!("part=driver kind={} len={} wrel={} len2={}{}", k, len, wrel,
                if l2 == len { "eq" } else if l2 < len { "shorter" } else { "longer" }, if len == 0 { " nt=0" } else { "" });
            let ds = |k: &str, l2: usize| format!("driver kind={} w={} len={} len2={} xs={:?}", k, w, len, l2, xs);
            let term = |kind: u32, l2: usize| format!("(run_trace {} {} {} {})", kind, coq_nat(w), coq_nat(len), coq_nat(l2));
            let tv = || TraceView::new(xs.clone(), 0, 0.0);
            // one-series drivers
            em.case("custom:trace", &tg("apply_to", len), &ds("apply_to", len), || term(0, len),
                || to!(len, len, |b| tv().rolling_apply::<TraceOut<f64>, _, _>(w, |_rm, v| v, b)));
            em.case("custom:trace", &tg("apply_ret", len), &ds("apply_ret", len), || term(9, len),
                || ret!(len, len, tv().rolling_apply::<TraceOut<f64>, _, _>(w, |_rm, v| v, None).unwrap()));
            em.case("custom:trace", &tg("idx_to", len), &ds("idx_to", len), || term(2, len),
                || to!(len, len, |b| tv().rolling_apply_idx::<TraceOut<f64>, _, _>(w, |_s, _e, v| v, b)));
            em.case("custom:trace", &tg("idx_ret", len), &ds("idx_ret", len), || term(9, len),
                || ret!(len, len, tv().rolling_apply_idx::<TraceOut<f64>, _, _>(w, |_s, _e, v| v, None).unwrap()));
            em.case("custom:trace", &tg("custom_to", len), &ds("custom_to", len), || term(4, len),
                || { let _ = take_log(); let r = guarded(std::panic::AssertUnwindSafe(|| -> Option<TraceOut<f64>> {
                        let mut u = TraceOut::<f64>::uninit(len);
                        tv().rolling_custom_to::<TraceOut<f64>, _, _>(w, |s: Vec<f64>| s.len() as f64, TraceOut::<f64>::uninit_ref_mut(&mut u));
                        Some(unsafe { u.assume_init() }) })); assemble(len, len, r) });
            em.case("custom:trace", &tg("custom_ret", len), &ds("custom_ret", len), || term(5, len),
                || ret!(len, len, tv().rolling_custom::<TraceOut<f64>, _, _>(w, |s: Vec<f64>| s.len() as f64, None).unwrap()));
            em.case("custom:trace", &tg("custom_write", len), &ds("custom_write", len), || term(6, len),
                || to!(len, len, |b| tv().rolling_custom::<TraceOut<f64>, _, _>(w, |s: Vec<f64>| s.len() as f64, b)));
            // audit YB: the default rolling_custom with a caller buffer of ANOTHER length lo (uninit.rs write_trust_iter: empty
            // buffer -> Ok, nothing pulled; one-element series -> its single item stored in every slot; otherwise Err -> `unwrap`
            // panics before anything is pulled or stored).  Cells: (lo, len) - the writes are bounded by the BUFFER.  Model:
            // run_custom_write (Model/Kernels.v custom_write_call).  No use of the generator: the stream of the other cases is unchanged.
            {
                let mut los: Vec<usize> = vec![0, 1, 3, len + 1, len.saturating_sub(1)];
                los.sort(); los.dedup(); los.retain(|&lo| lo != len);
                for lo in los {
                    em.case("custom:trace", &format!("{} buf={}", tg("custom_write_buf", lo), if lo == 0 { "empty" } else if len == 1 { "bcast" } else { "mismatch" }),
                        &format!("{} lo={}", ds("custom_write_buf", len), lo),
                        || format!("(run_custom_write {} {} {})", coq_nat(w), coq_nat(len), coq_nat(lo)),
                        || { let _ = take_log(); let r = guarded(std::panic::AssertUnwindSafe(|| -> Option<TraceOut<f64>> {
                                let mut u = TraceOut::<f64>::uninit(lo);
                                {
                                    let b = Some(TraceOut::<f64>::uninit_ref_mut(&mut u));
                                    let _: Option<TraceOut<f64>> = tv().rolling_custom::<TraceOut<f64>, _, _>(w, |s: Vec<f64>| s.len() as f64, b);
                                }
                                Some(unsafe { u.assume_init() }) })); assemble(lo, len, r) });
                }
            }
            // Vec input (fast paths allocate the output themselves): only the writes are visible
            em.case("custom:writes", &tg("vec_apply_ret", len), &ds("vec_apply_ret", len), || term(0, len),
                || ret!(len, len, xs.rolling_apply::<TraceOut<f64>, _, _>(w, |_rm, v| v, None).unwrap()));
            em.case("custom:writes", &tg("vec_idx_ret", len), &ds("vec_idx_ret", len), || term(2, len),
                || ret!(len, len, xs.rolling_apply_idx::<TraceOut<f64>, _, _>(w, |_s, _e, v| v, None).unwrap()));
            em.case("custom:writes", &tg("vec_custom_ret", len), &ds("vec_custom_ret", len), || term(4, len),
                || ret!(len, len, xs.rolling_custom::<TraceOut<f64>, _, _>(w, |s: &[f64]| s.len() as f64, None).unwrap()));
            // two-series drivers, second series of equal / shorter / longer length
            for &l2 in lens2.iter() {
                let ys = if w == 0 && len >= 2 && l2 == 0 { vec![] } else { series(&mut rng, l2) };
                let tv2 = || TraceView::new(ys.clone(), 1, 0.0);
                em.case("custom:trace", &tg("apply2_to", l2), &ds("apply2_to", l2), || term(1, l2),
                    || to!(len, l2, |b| tv().rolling2_apply::<TraceOut<f64>, _, _, _, _>(&tv2(), w, |_rm, v: (f64, f64)| v.0, b)));
                em.case("custom:trace", &tg("idx2_to", l2), &ds("idx2_to", l2), || term(3, l2),
                    || to!(len, l2, |b| tv().rolling2_apply_idx::<TraceOut<f64>, _, _, _, _>(&tv2(), w, |_s, _e, v: (f64, f64)| v.0, b)));
                em.case("custom:trace", &tg("custom2_ret", l2), &ds("custom2_ret", l2), || term(7, l2),
                    || ret!(len, l2, tv().rolling2_custom::<TraceOut<f64>, _, _, _, _>(&tv2(), w, |a: Vec<f64>, _b: Vec<f64>| a.len() as f64, None).unwrap()));
                em.case("custom:trace", &tg("custom2_write", l2), &ds("custom2_write", l2), || term(8, l2),
                    || to!(len, l2, |b| tv().rolling2_custom::<TraceOut<f64>, _, _, _, _>(&tv2(), w, |a: Vec<f64>, _b: Vec<f64>| a.len() as f64, b)));
                if l2 >= len {
                    // iterator bodies zip: defined (possibly shorter) result, no unchecked access
                    em.case("custom:trace", &tg("apply2_ret", l2), &ds("apply2_ret", l2), || term(9, l2),
                        || ret!(len, l2, tv().rolling2_apply::<TraceOut<f64>, _, _, _, _>(&tv2(), w, |_rm, v: (f64, f64)| v.0, None).unwrap()));
                    em.case("custom:trace", &tg("idx2_ret", l2), &ds("idx2_ret", l2), || term(9, l2),
                        || ret!(len, l2, tv().rolling2_apply_idx::<TraceOut<f64>, _, _, _, _>(&tv2(), w, |_s, _e, v: (f64, f64)| v.0, None).unwrap()));
                } else {
                    em.case("custom:direct", &tg("apply2_ret_short", l2), &ds("apply2_ret_short", l2), || "(@nil Z)".to_string(),
                        || ret!(l2, l2, tv().rolling2_apply::<TraceOut<f64>, _, _, _, _>(&tv2(), w.max(1), |_rm, v: (f64, f64)| v.0, None).unwrap()));
                    if w == 0 {
                        // X12: the iterator bodies assert the window on SELF before zipping - also when the second
                        // series is shorter or empty (the model: run_trace 9 = the guard on len, no access)
                        em.case("custom:trace", &tg("apply2_ret_w0_short", l2), &ds("apply2_ret_w0_short", l2), || term(9, l2),
                            || ret!(len, l2, tv().rolling2_apply::<TraceOut<f64>, _, _, _, _>(&tv2(), w, |_rm, v: (f64, f64)| v.0, None).unwrap()));
                        em.case("custom:trace", &tg("idx2_ret_w0_short", l2), &ds("idx2_ret_w0_short", l2), || term(9, l2),
                            || ret!(len, l2, tv().rolling2_apply_idx::<TraceOut<f64>, _, _, _, _>(&tv2(), w, |_s, _e, v: (f64, f64)| v.0, None).unwrap()));
                    }
                }
            }
        }
    }
    // ---------------- part B: every rolling entry point and kernel, monitored directly ----------
    macro_rules! one_series_fns {
        ($m:ident) => {
            $m!(ts_vsum, ts_vsum_to); $m!(ts_vmean, ts_vmean_to); $m!(ts_vewm, ts_vewm_to); $m!(ts_vwma, ts_vwma_to);
            $m!(ts_vstd, ts_vstd_to); $m!(ts_vvar, ts_vvar_to); $m!(ts_vskew, ts_vskew_to); $m!(ts_vkurt, ts_vkurt_to);
            $m!(ts_vmin, ts_vmin_to); $m!(ts_vmax, ts_vmax_to); $m!(ts_vargmin, ts_vargmin_to); $m!(ts_vargmax, ts_vargmax_to);
            $m!(ts_vzscore, ts_vzscore_to); $m!(ts_vminmaxnorm, ts_vminmaxnorm_to);
            $m!(ts_vreg, ts_vreg_to); $m!(ts_vtsf, ts_vtsf_to); $m!(ts_vreg_slope, ts_vreg_slope_to);
            $m!(ts_vreg_intercept, ts_vreg_intercept_to); $m!(ts_vreg_resid_mean, ts_vreg_resid_mean_to);
        };
    }
    macro_rules! two_series_fns {
        ($m:ident) => {
            $m!(ts_vcov, ts_vcov_to); $m!(ts_vcorr, ts_vcorr_to); $m!(ts_vregx_alpha, ts_vregx_alpha_to);
            $m!(ts_vregx_beta, ts_vregx_beta_to); $m!(ts_vregx_resid_mean, ts_vregx_resid_mean_to);
            $m!(ts_vregx_resid_std, ts_vregx_resid_std_to); $m!(ts_vregx_resid_skew, ts_vregx_resid_skew_to);
        };
    }
    let nser = if em.thorough() { 60 } else { 12 };
    for si in 0..nser {
        let len = if si < 3 { si } else { rng.range(1, maxlen as i64 + 2) as usize };
        let xs = series(&mut rng, len);
        let ys = series(&mut rng, len);
        for w in 0..=len + 2 {
            if w > 3 && w < len && rng.chance(1, 2) { continue; }
            let mps: Vec<Option<usize>> = vec![None, Some(0), Some(rng.range(0, w as i64) as usize)];
            for mp in mps {
                let wrel = if w == 0 { "zero" } else if w > len { "gt" } else if w == len { "eq" } else { "lt" };
                let tv = || TraceView::new(xs.clone(), 0, 0.0);
                let tv2 = || TraceView::new(ys.clone(), 1, 0.0);
                macro_rules! one {
                    ($f:ident, $fto:ident) => {
                        let name = stringify!($f);
                        em.case("custom:direct", &format!("part=kernel fn={} path=ret len={} wrel={}{}", name, len, wrel, if len == 0 { " nt=0" } else { "" }),
                            &format!("fn={} path=ret w={} mp={:?} xs={:?}", name, w, mp, xs), || "(@nil Z)".to_string(),
                            || ret!(len, len, tv().$f::<TraceOut<f64>, f64>(w, mp)));
                        em.case("custom:direct", &format!("part=kernel fn={} path=to len={} wrel={}{}", name, len, wrel, if len == 0 { " nt=0" } else { "" }),
                            &format!("fn={} path=to w={} mp={:?} xs={:?}", name, w, mp, xs), || "(@nil Z)".to_string(),
                            || to!(len, len, |b| tv().$fto::<TraceOut<f64>, f64>(w, mp, b)));
                        em.case("custom:direct", &format!("part=kernel fn={} path=vec len={} wrel={}{}", name, len, wrel, if len == 0 { " nt=0" } else { "" }),
                            &format!("fn={} path=vec w={} mp={:?} xs={:?}", name, w, mp, xs), || "(@nil Z)".to_string(),
                            || ret!(len, len, xs.$f::<TraceOut<f64>, f64>(w, mp)));
                    };
                }
                one_series_fns!(one);
                macro_rules! two {
                    ($f:ident, $fto:ident) => {
                        let name = stringify!($f);
                        em.case("custom:direct", &format!("part=kernel fn={} path=ret len={} wrel={}{}", name, len, wrel, if len == 0 { " nt=0" } else { "" }),
                            &format!("fn={} path=ret w={} mp={:?} xs={:?} ys={:?}", name, w, mp, xs, ys), || "(@nil Z)".to_string(),
                            || ret!(len, len, tv().$f::<TraceOut<f64>, f64, _, _>(&tv2(), w, mp)));
                        em.case("custom:direct", &format!("part=kernel fn={} path=to len={} wrel={}{}", name, len, wrel, if len == 0 { " nt=0" } else { "" }),
                            &format!("fn={} path=to w={} mp={:?} xs={:?} ys={:?}", name, w, mp, xs, ys), || "(@nil Z)".to_string(),
                            || to!(len, len, |b| tv().$fto::<TraceOut<f64>, f64, _, _>(&tv2(), w, mp, b)));
                        em.case("custom:direct", &format!("part=kernel fn={} path=vec len={} wrel={}{}", name, len, wrel, if len == 0 { " nt=0" } else { "" }),
                            &format!("fn={} path=vec w={} mp={:?} xs={:?} ys={:?}", name, w, mp, xs, ys), || "(@nil Z)".to_string(),
                            || ret!(len, len, xs.$f::<TraceOut<f64>, f64, _, _>(&ys, w, mp)));
                    };
                }
                two_series_fns!(two);
                // ts_vrank has two extra flags
                for (pct, rev) in [(false, false), (true, true)] {
                    em.case("custom:direct", &format!("part=kernel fn=ts_vrank path=ret len={} wrel={}{}", len, wrel, if len == 0 { " nt=0" } else { "" }),
                        &format!("fn=ts_vrank path=ret w={} mp={:?} pct={} rev={} xs={:?}", w, mp, pct, rev, xs), || "(@nil Z)".to_string(),
                        || ret!(len, len, tv().ts_vrank::<TraceOut<f64>, f64>(w, mp, pct, rev)));
                    em.case("custom:direct", &format!("part=kernel fn=ts_vrank path=to len={} wrel={}{}", len, wrel, if len == 0 { " nt=0" } else { "" }),
                        &format!("fn=ts_vrank path=to w={} mp={:?} pct={} rev={} xs={:?}", w, mp, pct, rev, xs), || "(@nil Z)".to_string(),
                        || to!(len, len, |b| tv().ts_vrank_to::<TraceOut<f64>, f64>(w, mp, pct, rev, b)));
                }
            }
        }
        // vrank / partition / quantile kernels on the instrumented view
        for (pct, rev) in [(false, false), (false, true), (true, false), (true, true)] {
            em.case("custom:direct", &format!("part=kernel fn=vrank len={}{}", len, if len == 0 { " nt=0" } else { "" }),
                &format!("fn=vrank pct={} rev={} xs={:?}", pct, rev, xs), || "(@nil Z)".to_string(),
                || ret!(len, len, TraceView::new(xs.clone(), 0, 0.0).vrank::<TraceOut<f64>, f64>(pct, rev)));
        }
        for k in 0..=len + 1 {
            for (sort, rev) in [(false, false), (true, false), (true, true)] {
                em.case("custom:direct", &format!("part=kernel fn=vpartition len={}{}", len, if len == 0 { " nt=0" } else { "" }),
                    &format!("fn=vpartition k={} sort={} rev={} xs={:?}", k, sort, rev, xs), || "(@nil Z)".to_string(),
                    || { let _ = take_log(); let r = guarded(std::panic::AssertUnwindSafe(|| -> Option<TraceOut<f64>> {
                            let v = TraceView::new(xs.clone(), 0, 0.0);
                            let mut n = 0usize; for _ in v.vpartition(k, sort, rev) { n += 1 }
                            let mut m = 0usize; for _ in v.varg_partition(k, sort, rev) { m += 1 }
                            let _ = (n, m); None })); assemble::<f64>(len, len, r) });
            }
        }
        // the partition iterators collected the way a trusted-length collector does it, for f64 and for Option<f64> series -
        // "any series": also optional series holding Some(NaN), which `is_none` and `not_none` may see differently
        {
            let xo: Vec<Option<f64>> = xs.iter().enumerate().map(|(i, x)| if x.is_nan() { if (i + si) % 3 == 0 { Some(*x) } else { None } } else { Some(*x) }).collect();
            let xc: Vec<Option<f64>> = xs.iter().map(|x| if x.is_nan() { None } else { Some(*x) }).collect();
            for k in 0..=len + 1 {
                for (sort, rev) in [(false, false), (false, true), (true, false), (true, true)] {
                    let tg = |f: &str, ty: &str| format!("part=kernel fn={} ty={} len={}{}", f, ty, len, if len == 0 { " nt=0" } else { "" });
                    em.case("custom:direct", &tg("vpartition_collect", "f64"), &format!("fn=vpartition collected k={} sort={} rev={} xs={:?}", k, sort, rev, xs), || "(@nil Z)".to_string(),
                        || { let _ = take_log(); assemble_collected(len, guarded(std::panic::AssertUnwindSafe(|| { let v = TraceView::new(xs.clone(), 1, 0.0); collect_checked(v.vpartition(k, sort, rev)) }))) });
                    em.case("custom:direct", &tg("varg_partition_collect", "f64"), &format!("fn=varg_partition collected k={} sort={} rev={} xs={:?}", k, sort, rev, xs), || "(@nil Z)".to_string(),
                        || { let _ = take_log(); assemble_collected(len, guarded(std::panic::AssertUnwindSafe(|| { let v = TraceView::new(xs.clone(), 1, 0.0); collect_checked(v.varg_partition(k, sort, rev)) }))) });
                    for (ty, xv) in [("optf64", &xc), ("optf64_somenan", &xo)] {
                        em.case("custom:direct", &tg("vpartition_collect", ty), &format!("fn=vpartition collected k={} sort={} rev={} xs={:?}", k, sort, rev, xv), || "(@nil Z)".to_string(),
                            || { let _ = take_log(); assemble_collected(len, guarded(std::panic::AssertUnwindSafe(|| { let v = TraceView::new(xv.clone(), 1, None); collect_checked(v.vpartition(k, sort, rev)) }))) });
                        em.case("custom:direct", &tg("varg_partition_collect", ty), &format!("fn=varg_partition collected k={} sort={} rev={} xs={:?}", k, sort, rev, xv), || "(@nil Z)".to_string(),
                            || { let _ = take_log(); assemble_collected(len, guarded(std::panic::AssertUnwindSafe(|| { let v = TraceView::new(xv.clone(), 1, None); collect_checked(v.varg_partition(k, sort, rev)) }))) });
                    }
                }
            }
        }
        for q in [0.0, 0.3, 0.5, 0.9, 1.0] {
            em.case("custom:direct", &format!("part=kernel fn=vquantile len={}{}", len, if len == 0 { " nt=0" } else { "" }),
                &format!("fn=vquantile q={} xs={:?}", q, xs), || "(@nil Z)".to_string(),
                || { let _ = take_log(); let r = guarded(std::panic::AssertUnwindSafe(|| -> Option<TraceOut<f64>> {
                        let v = TraceView::new(xs.clone(), 0, 0.0);
                        let _ = v.vquantile(q, QuantileMethod::Linear); let _ = v.vmedian(); None })); assemble::<f64>(len, len, r) });
        }
    }
    // ---------------- part C: the kernel traces compared with the model's, cell by cell -------------
    let klens: Vec<usize> = if em.thorough() { vec![0, 1, 2, 3, 5, 6, 8, 9] } else { vec![0, 1, 2, 4, 6] };
    let nkind = 9usize;
    for &len in klens.iter() {
        for kind in 0..nkind {
            if len <= 1 && kind > 0 && kind != 6 { continue; }
            if len == 2 && !(kind == 0 || kind == 1 || kind == 4 || kind == 6 || kind == 8) { continue; }
            let xs = kseries(&mut rng, kind, len);
            let cxs = coq_list(&xs, |x| coq_f64(*x));
            let mut ws: Vec<usize> = vec![0, 1, 2, len, len + 1];
            if len > 3 { ws.push(3) }
            if len > 5 { ws.push(len - 1) }
            ws.sort(); ws.dedup();
            for &w in ws.iter() {
                let mut mps: Vec<Option<usize>> = vec![None, Some(1)];
                if w >= 2 && (kind % 3 == 0 || em.thorough()) { mps.push(Some(w)) }
                if kind == 8 { mps.push(Some(0)) }
                for mp in mps {
                    let wrel = if w == 0 { "zero" } else if w > len { "gt" } else if w == len { "eq" } else if w == 1 { "one" } else { "lt" };
                    let cmp_ = coq_opt(&mp, |m| coq_nat(*m));
                    // one emitter for every (fn, path): runs the implementation first (no unchecked memory access can
                    // happen behind TraceView / TraceOut / StepOut), so that the tag can say whether a rescan happened
                    macro_rules! kcase {
                        ($name:expr, $fnc:expr, $pct:expr, $rev:expr, $body:expr, $run:expr) => {{
                            let selected = em.args.only.map_or(true, |o| o == em.next_id) && em.next_id >= em.args.from;
                            let (cells, rescan) = if selected { let r = $run; step_cells(len, len, if $body { 1 } else { 0 }, r) } else { (vec![], false) };
                            em.case("custom:ksteps",
                                &format!("part=ktrace fn={} path={} kind={} len={} wrel={} rescan={}{}", $name, if $body { "to" } else { "ret" }, kind, len, wrel,
                                    if rescan { 1 } else { 0 }, if len == 0 { " nt=0" } else { "" }),
                                &format!("ktrace fn={} path={} w={} mp={:?} pct={} rev={} xs={:?}", $name, if $body { "to" } else { "ret" }, w, mp, $pct, $rev, xs),
                                || format!("(run_ksteps {} {} {} {} {} {} {})", $fnc, coq_bool($body), coq_nat(w), cmp_, coq_bool($pct), coq_bool($rev), cxs),
                                || cells);
                        }};
                    }
                    let tv = || TraceView::new(xs.clone(), 0, 0.0);
                    kcase!("ts_vmin", 0, false, false, true, kto!(|b| tv().ts_vmin_to::<TraceOut<f64>, f64>(w, mp, b), len));
                    kcase!("ts_vmin", 0, false, false, false, kret!(tv().ts_vmin::<StepOut<f64>, f64>(w, mp)));
                    kcase!("ts_vmax", 1, false, false, true, kto!(|b| tv().ts_vmax_to::<TraceOut<f64>, f64>(w, mp, b), len));
                    kcase!("ts_vmax", 1, false, false, false, kret!(tv().ts_vmax::<StepOut<f64>, f64>(w, mp)));
                    kcase!("ts_vargmin", 2, false, false, true, kto!(|b| tv().ts_vargmin_to::<TraceOut<f64>, f64>(w, mp, b), len));
                    kcase!("ts_vargmin", 2, false, false, false, kret!(tv().ts_vargmin::<StepOut<f64>, f64>(w, mp)));
                    kcase!("ts_vargmax", 3, false, false, true, kto!(|b| tv().ts_vargmax_to::<TraceOut<f64>, f64>(w, mp, b), len));
                    kcase!("ts_vargmax", 3, false, false, false, kret!(tv().ts_vargmax::<StepOut<f64>, f64>(w, mp)));
                    kcase!("ts_vminmaxnorm", 5, false, false, true, kto!(|b| tv().ts_vminmaxnorm_to::<TraceOut<f64>, f64>(w, mp, b), len));
                    kcase!("ts_vminmaxnorm", 5, false, false, false, kret!(tv().ts_vminmaxnorm::<StepOut<f64>, f64>(w, mp)));
                    let (pct, rev) = if (w + kind) % 2 == 0 { (false, false) } else { (true, true) };
                    kcase!("ts_vrank", 4, pct, rev, true, kto!(|b| tv().ts_vrank_to::<TraceOut<f64>, f64>(w, mp, pct, rev, b), len));
                    kcase!("ts_vrank", 4, pct, rev, false, kret!(tv().ts_vrank::<StepOut<f64>, f64>(w, mp, pct, rev)));
                    // residual statistics: second series equal / shorter / longer (index body: documented panic when shorter)
                    let lens2: Vec<usize> = if len == 0 { vec![0, 1] } else { vec![len, len - 1, len + 1] };
                    for (li, &l2) in lens2.iter().enumerate() {
                        if li > 0 && !(mp == Some(1) || em.thorough()) { continue; }
                        let ys = kseries(&mut rng, if kind == 6 { 8 } else { (kind + 1) % nkind }, l2);
                        let cys = coq_list(&ys, |x| coq_f64(*x));
                        let l2rel = if l2 == len { "eq" } else if l2 < len { "shorter" } else { "longer" };
                        let tv2 = || TraceView::new(ys.clone(), 1, 0.0);
                        macro_rules! kcase2 {
                            ($name:expr, $fnc:expr, $body:expr, $run:expr) => {{
                                let selected = em.args.only.map_or(true, |o| o == em.next_id) && em.next_id >= em.args.from;
                                let (cells, rescan) = if selected { let r = $run; step_cells(len, l2, if $body { 2 } else { 0 }, r) } else { (vec![], false) };
                                em.case("custom:ksteps",
                                    &format!("part=ktrace fn={} path={} kind={} len={} wrel={} len2={} rescan={}{}", $name, if $body { "to" } else { "ret" }, kind, len, wrel, l2rel,
                                        if rescan { 1 } else { 0 }, if len == 0 { " nt=0" } else { "" }),
                                    &format!("ktrace fn={} path={} w={} mp={:?} xs={:?} ys={:?}", $name, if $body { "to" } else { "ret" }, w, mp, xs, ys),
                                    || format!("(run_ksteps2 {} {} {} {} {} {})", $fnc, coq_bool($body), coq_nat(w), cmp_, cxs, cys),
                                    || cells);
                            }};
                        }
                        match (w + li + kind) % 3 {
                            0 => {
                                kcase2!("ts_vregx_resid_mean", 0, true, kto!(|b| tv().ts_vregx_resid_mean_to::<TraceOut<f64>, f64, _, _>(&tv2(), w, mp, b), len));
                                kcase2!("ts_vregx_resid_mean", 0, false, kret!(tv().ts_vregx_resid_mean::<StepOut<f64>, f64, _, _>(&tv2(), w, mp)));
                            }
                            1 => {
                                kcase2!("ts_vregx_resid_std", 1, true, kto!(|b| tv().ts_vregx_resid_std_to::<TraceOut<f64>, f64, _, _>(&tv2(), w, mp, b), len));
                                kcase2!("ts_vregx_resid_std", 1, false, kret!(tv().ts_vregx_resid_std::<StepOut<f64>, f64, _, _>(&tv2(), w, mp)));
                            }
                            _ => {
                                kcase2!("ts_vregx_resid_skew", 2, true, kto!(|b| tv().ts_vregx_resid_skew_to::<TraceOut<f64>, f64, _, _>(&tv2(), w, mp, b), len));
                                kcase2!("ts_vregx_resid_skew", 2, false, kret!(tv().ts_vregx_resid_skew::<StepOut<f64>, f64, _, _>(&tv2(), w, mp)));
                            }
                        }
                    }
                }
            }
            // vrank on the same series: the trace cut at its writes, modulo ties
            for (pct, rev) in [(false, false), (false, true), (true, false), (true, true)] {
                em.case("custom:vsegs", &format!("part=ktrace fn=vrank kind={} len={}{}", kind, len, if len == 0 { " nt=0" } else { "" }),
                    &format!("ktrace fn=vrank pct={} rev={} xs={:?}", pct, rev, xs),
                    || format!("(run_vrank_segs {} {} {})", coq_bool(pct), coq_bool(rev), cxs),
                    || { let _ = take_log();
                         let r = guarded(std::panic::AssertUnwindSafe(|| -> Option<TraceOut<f64>> {
                             Some(TraceView::new(xs.clone(), 0, 0.0).vrank::<TraceOut<f64>, f64>(pct, rev)) }));
                         vrank_cells(&xs, r) });
            }
        }
    }
    em.finish();
}
