//! Shared pieces of the correspondence harness: PRNG, Coq term rendering, cell encoding, line
//! protocol.  This module never imports `tevec::prelude` (it shadows Iterator methods).
pub mod proto;
pub mod rng;
pub mod rollreg;
pub mod trace;
pub use proto::*;
pub use rng::*;
