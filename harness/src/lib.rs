//! Shared pieces of the correspondence harness: PRNG, Coq term rendering, cell encoding, line
//! protocol.  This module never imports `tevec::prelude` (it shadows Iterator methods).
pub mod proto;
pub mod rng;
pub mod rollreg;
pub mod trace;
pub use proto::*;
pub use rng::*;

/// the null of a float series at position `i`: NaNs of both signs (x86-64 yields the sign-bit-set NaN for 0.0 / 0.0, the
/// literal f64::NAN is the positive one); a predicate or comparison that only handles one of them is a defect
pub fn nan_at(i: usize) -> f64 { if i % 2 == 0 { f64::NAN } else { -f64::NAN } }
