//! Shared pieces of the correspondence harness: PRNG, Coq term rendering, cell encoding, line
//! protocol.  This module never imports `tevec::prelude` (it shadows Iterator methods).
pub mod proto;
pub mod rng;
pub mod rollreg;
pub mod trace;
pub use proto::*;
pub use rng::*;

/// the null of a float series at position `i`: NaNs of both signs (x86-64 yields the sign-bit-set NaN for 0.0 / 0.0, the
/// literal f64::NAN is the positive one); a predicate or comparison that only handles one of them is a defect
pub fn nan_at(i: usize) -> f64 { if i % 2 == 0 { f64::NAN } else { -f64::NAN } }

/// a VecDeque holding `xs` whose ring buffer has WRAPPED (the second half of `as_slices()` is non-empty whenever
/// `xs.len() >= 2`): the state a deque reaches when it is used as a rolling buffer (push_back to capacity, pop_front,
/// push_back …); a deque built by `collect()` is always contiguous, so an accessor that mishandles the wrap is invisible there
pub fn wrapped_deque<T: Clone + Default>(xs: &[T]) -> std::collections::VecDeque<T> {
    let mut d: std::collections::VecDeque<T> = std::collections::VecDeque::with_capacity(xs.len().max(1));
    let cap = d.capacity();
    // head offset such that about half of the elements end up before the physical end of the buffer
    let shift = if xs.len() >= 2 { cap - xs.len() / 2 } else { 0 };
    for _ in 0..shift { d.push_back(T::default()) }
    for _ in 0..shift { d.pop_front(); }
    for x in xs { d.push_back(x.clone()) }
    debug_assert!(xs.len() < 2 || !d.as_slices().1.is_empty());
    d
}
