//! Instrumented containers for C10: an input view that logs every accessor call and an output
//! container that logs every write, both written against tevec's public traits only.
use std::cell::RefCell;

use tevec::prelude::{GetLen, TIter, TIterator, TResult, UninitRefMut, UninitVec, Vec1, Vec1View};

#[derive(Clone, Debug, PartialEq)]
pub enum Acc {
    Uget(usize, usize),           // (view id, index)
    Uslice(usize, usize, usize),  // (view id, start, end)
    Slice(usize, usize, usize),
    Titer(usize),
    Uset(usize),
}

thread_local! {
    /// one global, ordered log of every accessor call and every output write of the current case
    pub static LOG: RefCell<Vec<Acc>> = const { RefCell::new(Vec::new()) };
}
pub fn log(a: Acc) {
    LOG.with(|l| l.borrow_mut().push(a))
}
pub fn take_log() -> Vec<Acc> {
    LOG.with(|l| std::mem::take(&mut *l.borrow_mut()))
}

/// Input container: the data plus a log of accessor calls.  Out-of-range unchecked accesses are
/// logged and answered with a default value instead of touching memory.
pub struct TraceView<T> {
    pub data: Vec<T>,
    pub id: usize,
    pub dflt: T,
}

impl<T: Clone> TraceView<T> {
    pub fn new(data: Vec<T>, id: usize, dflt: T) -> Self {
        TraceView { data, id, dflt }
    }
}

impl<T> GetLen for TraceView<T> {
    fn len(&self) -> usize {
        self.data.len()
    }
}

impl<T: Clone> TIter<T> for TraceView<T> {
    fn titer(&self) -> impl TIterator<Item = T> + '_ {
        log(Acc::Titer(self.id));
        self.data.iter().cloned()
    }
}

impl<T: Clone> Vec1View<T> for TraceView<T> {
    type SliceOutput<'a>
        = Vec<T>
    where
        Self: 'a;

    fn get_backend_name(&self) -> &'static str {
        "trace"
    }

    fn slice<'a>(&'a self, start: usize, end: usize) -> TResult<Self::SliceOutput<'a>>
    where
        T: 'a,
    {
        log(Acc::Slice(self.id, start, end));
        if start <= end && end <= self.data.len() {
            Ok(self.data[start..end].to_vec())
        } else {
            Ok(vec![])
        }
    }

    unsafe fn uslice<'a>(&'a self, start: usize, end: usize) -> TResult<Self::SliceOutput<'a>>
    where
        T: 'a,
    {
        log(Acc::Uslice(self.id, start, end));
        if start <= end && end <= self.data.len() {
            Ok(self.data[start..end].to_vec())
        } else {
            Ok(vec![])
        }
    }

    unsafe fn uget(&self, index: usize) -> T {
        log(Acc::Uget(self.id, index));
        match <[T]>::get(&self.data, index) {
            Some(v) => v.clone(),
            None => self.dflt.clone(),
        }
    }
}

/// Output container: every slot is an Option (None = never written); writes are logged in order.
#[derive(Clone, Debug)]
pub struct TraceOut<T> {
    pub slots: Vec<Option<T>>,
    pub writes: Vec<usize>,
}

pub struct TraceUninit<T> {
    pub slots: Vec<Option<T>>,
    pub writes: Vec<usize>,
}

impl<T> GetLen for TraceOut<T> {
    fn len(&self) -> usize {
        self.slots.len()
    }
}
impl<T> GetLen for TraceUninit<T> {
    fn len(&self) -> usize {
        self.slots.len()
    }
}

impl<T: Clone> TIter<T> for TraceOut<T> {
    fn titer(&self) -> impl TIterator<Item = T> + '_ {
        self.slots.iter().map(|x| x.clone().expect("TraceOut: reading a slot that was never written"))
    }
}

impl<T: Clone> Vec1View<T> for TraceOut<T> {
    type SliceOutput<'a>
        = Vec<T>
    where
        Self: 'a;
    fn get_backend_name(&self) -> &'static str {
        "traceout"
    }
    unsafe fn uget(&self, index: usize) -> T {
        self.slots[index].clone().expect("TraceOut: reading a slot that was never written")
    }
}

impl<T: Clone> Vec1<T> for TraceOut<T> {
    type Uninit = TraceUninit<T>;
    type UninitRefMut<'a>
        = &'a mut TraceUninit<T>
    where
        T: 'a;

    fn collect_from_iter<I: Iterator<Item = T>>(iter: I) -> Self {
        let slots: Vec<Option<T>> = iter.map(Some).collect();
        let writes = (0..slots.len()).collect();
        TraceOut { slots, writes }
    }

    fn uninit(len: usize) -> Self::Uninit {
        TraceUninit { slots: (0..len).map(|_| None).collect(), writes: vec![] }
    }

    fn uninit_ref_mut(uninit_vec: &mut Self::Uninit) -> Self::UninitRefMut<'_> {
        uninit_vec
    }
}

impl<T: Clone> UninitVec<T> for TraceUninit<T> {
    type Vec = TraceOut<T>;
    unsafe fn assume_init(self) -> Self::Vec {
        TraceOut { slots: self.slots, writes: self.writes }
    }
    unsafe fn uset(&mut self, idx: usize, v: T) {
        self.writes.push(idx);
        log(Acc::Uset(idx));
        if idx < self.slots.len() {
            self.slots[idx] = Some(v);
        }
    }
}

impl<T> UninitRefMut<T> for &mut TraceUninit<T> {
    unsafe fn uset(&mut self, idx: usize, v: T) {
        self.writes.push(idx);
        log(Acc::Uset(idx));
        if idx < self.slots.len() {
            self.slots[idx] = Some(v);
        }
    }
}
