/// SplitMix64: every random choice of a run derives from one seed.
#[derive(Clone)]
pub struct Rng(pub u64);

impl Rng {
    pub fn new(seed: u64) -> Self {
        Rng(seed ^ 0x9E37_79B9_7F4A_7C15)
    }
    pub fn next(&mut self) -> u64 {
        self.0 = self.0.wrapping_add(0x9E37_79B9_7F4A_7C15);
        let mut z = self.0;
        z = (z ^ (z >> 30)).wrapping_mul(0xBF58_476D_1CE4_E5B9);
        z = (z ^ (z >> 27)).wrapping_mul(0x94D0_49BB_1331_11EB);
        z ^ (z >> 31)
    }
    /// uniform in 0..n (n > 0)
    pub fn below(&mut self, n: usize) -> usize {
        (self.next() % (n as u64)) as usize
    }
    /// uniform in lo..=hi
    pub fn range(&mut self, lo: i64, hi: i64) -> i64 {
        lo + (self.next() % ((hi - lo + 1) as u64)) as i64
    }
    pub fn chance(&mut self, num: u64, den: u64) -> bool {
        self.next() % den < num
    }
    pub fn pick<'a, T>(&mut self, xs: &'a [T]) -> &'a T {
        &xs[self.below(xs.len())]
    }
}

/// Null patterns used by every generator (so that their distribution is reported uniformly).
pub const NULL_PATTERNS: [&str; 9] =
    ["none", "all", "leading", "trailing", "alternating", "blocks", "p10", "p50", "p90"];

pub fn null_mask(rng: &mut Rng, pat: &str, len: usize) -> Vec<bool> {
    let mut m = vec![false; len];
    match pat {
        "none" => {}
        "all" => m.iter_mut().for_each(|b| *b = true),
        "leading" => {
            let k = if len == 0 { 0 } else { rng.below(len + 1) };
            for b in m.iter_mut().take(k) {
                *b = true
            }
        }
        "trailing" => {
            let k = if len == 0 { 0 } else { rng.below(len + 1) };
            for i in len - k..len {
                m[i] = true
            }
        }
        "alternating" => {
            let ph = rng.below(2);
            for i in 0..len {
                m[i] = (i + ph) % 2 == 0
            }
        }
        "blocks" => {
            let bl = 1 + rng.below(3);
            let ph = rng.below(2);
            for i in 0..len {
                m[i] = ((i / bl) + ph) % 2 == 0
            }
        }
        "p10" => m.iter_mut().for_each(|b| *b = rng.chance(1, 10)),
        "p50" => m.iter_mut().for_each(|b| *b = rng.chance(1, 2)),
        "p90" => m.iter_mut().for_each(|b| *b = rng.chance(9, 10)),
        _ => panic!("unknown null pattern"),
    }
    m
}
